"""C11 -- IOAPI subsetting preserves geo- and time-referencing (bounded run-time contract)."""
import itertools
from .common import *   # noqa

CONTRACTS = []


def bounded(tier, seed):
    from rtc import harness as H, ioapi as IO
    import numpy as np
    P = H.real()
    run = H.Run('C11', tier, seed, budget_s=90 if tier == 'quick' else 600)

    def windows(n):
        w = [0, n - 1, -1, -n, 1, slice(0, 1), slice(1, n), slice(0, n), slice(1, n - 1), slice(-2, None), slice(None, -1), slice(n - 1, n)]
        return [x for x in w if np.atleast_1d(np.arange(n)[x]).size > 0]

    def first_len(sel, n):
        idx = np.arange(n)[sel]
        idx = np.atleast_1d(idx)
        return int(idx[0]), int(idx.size)
    files = [('hourly across year end', dict(nt=5, nz=3, ny=7, nx=4, sdate=2019365, stime=220000, tstep=10000)),
             ('daily across leap day', dict(nt=4, nz=4, ny=5, nx=6, sdate=2020059, stime=0, tstep=240000)),
             ('30 min', dict(nt=4, nz=2, ny=4, nx=5, sdate=2021001, stime=233000, tstep=3000))]
    for fname, kw in files:
        f = IO.make_ioapi(P, seed=seed, **kw)
        times0 = list(f.getTimes())
        vg0 = np.asarray(f.VGLVLS, 'd')
        x0, y0, dx, dy = float(f.XORIG), float(f.YORIG), float(f.XCELL), float(f.YCELL)
        dims = dict(ROW=kw['ny'], COL=kw['nx'], LAY=kw['nz'], TSTEP=kw['nt'])

        def check(sel, tag):
            def t():
                before = H.snapshot(f)
                g = f.sliceDimensions(**sel)
                e = IO.ioapi_wf(g)
                if e:
                    return 'metadata incoherent: ' + e
                if 'COL' in sel:
                    i0, n = first_len(sel['COL'], dims['COL'])
                    if abs(float(g.XORIG) - (x0 + i0 * dx)) > 1e-6 * abs(dx):
                        return 'XORIG %r, expected %r (first column %d)' % (float(g.XORIG), x0 + i0 * dx, i0)
                    if g.NCOLS != n:
                        return 'NCOLS %r expected %d' % (g.NCOLS, n)
                elif float(g.XORIG) != x0:
                    return 'XORIG changed without a COL window'
                if 'ROW' in sel:
                    i0, n = first_len(sel['ROW'], dims['ROW'])
                    if abs(float(g.YORIG) - (y0 + i0 * dy)) > 1e-6 * abs(dy):
                        return 'YORIG %r, expected %r (first row %d)' % (float(g.YORIG), y0 + i0 * dy, i0)
                elif float(g.YORIG) != y0:
                    return 'YORIG changed without a ROW window'
                if float(g.XCELL) != dx or float(g.YCELL) != dy:
                    return 'cell size changed'
                if 'LAY' in sel:
                    i0, n = first_len(sel['LAY'], dims['LAY'])
                    exp = vg0[i0:i0 + n + 1]
                    got = np.asarray(g.VGLVLS, 'd')
                    if got.shape != exp.shape or not np.allclose(got, exp, rtol=0, atol=0):
                        return 'VGLVLS %r expected %r' % (got.tolist(), exp.tolist())
                elif not np.array_equal(np.asarray(g.VGLVLS, 'd'), vg0):
                    return 'VGLVLS changed without a LAY window'
                if 'TSTEP' in sel:
                    i0, n = first_len(sel['TSTEP'], dims['TSTEP'])
                    exp = times0[i0:i0 + n]
                else:
                    exp = times0
                got = list(g.getTimes())
                if got != exp:
                    return 'decoded times %s expected %s' % ([x.isoformat() for x in got[:3]], [x.isoformat() for x in exp[:3]])
                if len(exp) > 1 or 'TSTEP' not in sel:
                    if int(g.TSTEP) != int(f.TSTEP):
                        return 'TSTEP attribute %r, source has %r' % (g.TSTEP, f.TSTEP)
                # data of the retained cells
                for vk in ('V0',):
                    a = np.asarray(f.variables[vk][...])
                    idx = tuple(np.atleast_1d(np.arange(dims[d])[sel[d]]) if d in sel else np.arange(dims[d]) for d in ('TSTEP', 'LAY', 'ROW', 'COL'))
                    expv = a[np.ix_(*idx)]
                    if not np.array_equal(np.asarray(g.variables[vk][...]), expv):
                        return 'data of the retained cells differ'
                return H.same_snapshot(before, H.snapshot(f))
            kinds = ','.join('%s=%s' % (d, 'int' if not isinstance(s, slice) else 'slice') for d, s in sorted(sel.items()))
            neg = any((not isinstance(s, slice) and s < 0) or (isinstance(s, slice) and ((s.start or 0) < 0 or (s.stop or 0) < 0)) for s in sel.values())
            run.case('C11:%s:%s%s' % (fname, kinds, ' (negative index)' if neg else ''), (fname, repr(sel)), t)
        for d in ('ROW', 'COL', 'LAY', 'TSTEP'):
            for w in windows(dims[d]):
                check({d: w}, 'one')
        pairs = list(itertools.combinations(('ROW', 'COL', 'LAY', 'TSTEP'), 2))
        for d1, d2 in pairs:
            W1, W2 = windows(dims[d1]), windows(dims[d2])
            sel_pairs = [(W1[i], W2[(i * 5 + 3) % len(W2)]) for i in range(len(W1))] if tier == 'quick' else list(itertools.product(W1, W2))
            for w1, w2 in sel_pairs:
                check({d1: w1, d2: w2}, 'two')
            if run.out_of_time():
                break
    return run.result(
        rule='real ioapi sliceDimensions with contiguous windows: XORIG/YORIG moved by first index x cell, VGLVLS equal to the matching sub-range, decoded times equal to the sub-range of the source times, '
             'TSTEP attribute kept, retained data identical, metadata coherent (C10 invariant), source unchanged',
        bound='grids 7x4x3 (hourly across year end), 5x6x4 (daily across leap day), 4x5x2 (30 min); windows {0, n-1, -1, -n, 1, unit-stride slices touching both edges, negative bounds}; single dimensions and pairs')


def bounded_replay(p):
    return False, p.get('what')


META = dict(
    level='exploration',
    technique='bounded run-time contract on the real IOAPI sliceDimensions (origin / level / time referencing oracle)',
    text='origin, level edges, decoded times and TSTEP of every window compared with the projected coordinates / level bounds / timestamps of the retained cells in the source.',
    note='bounded only.',
    assumptions=[], explanation='')
