#!/bin/sh
# MANIFEST.setup_cmd: builds /verif/.venv offline (python 3.12 from /venv's interpreter;
# z3-solver, cvc5, icontract, jsonschema from /opt/veriftools/wheels; a .pth adding /venv's
# site-packages so numpy/netCDF4/scipy/cftime of the repository's own environment are visible).
set -e
cd "$(dirname "$0")"
if [ -x .venv/bin/python ] && .venv/bin/python -c "import z3, jsonschema, numpy, netCDF4" 2>/dev/null; then
  echo "setup: .venv already usable"; exit 0
fi
rm -rf .venv
/venv/bin/python -m venv .venv
PIP_NO_INDEX=1 .venv/bin/pip install -q --no-index --find-links /opt/veriftools/wheels \
    z3-solver cvc5 icontract jsonschema >/dev/null
SP=$(.venv/bin/python -c "import sysconfig; print(sysconfig.get_paths()['purelib'])")
echo "import site; site.addsitedir('/venv/lib/python3.12/site-packages')" > "$SP/zz_venv_overlay.pth"
.venv/bin/python -c "import z3, cvc5, jsonschema, numpy, netCDF4, scipy; print('setup: ok', z3.get_version_string(), numpy.__version__)"
